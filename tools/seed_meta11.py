#!/usr/bin/env python3
"""meta.json for the eleventh, held-out seeding round (ids <prop>-8,-9,-0; ordinary-looking maintenance changes that need something specific to manifest; first run with the frozen binary of commit a7da13f). caught_by is filled by par_run.sh seeded."""
import json, os
M = {
"C01-8": ("apply memoises dead ends by (state, number of remaining tokens)", "`(-a | -b) -c [-a]`, argv `-b -c -a` rejected"),
"C01-9": ("atom: folded group's list built in a scratch buffer kept on the parser and handed to NewOptions", "`[-ab] X [-cd]`: argv `-a x` rejected, `-c x` accepted"),
"C01-0": ("apply: `--` strip loses the `!pc.RejectOptions` guard", "`X Y`, argv `-- a --` rejected"),
"C02-8": ("apply: `--` strip loses the `!pc.RejectOptions` guard", "`[-f] ARG...`, argv `-- a -- b`: ARG=[a b]"),
"C02-9": ("removeStringsBetween rewritten with append(arr[:from], arr[to+1:]...) (aliasing the shared vector)", "`[-x] [-o] [-a] ARG...`, argv `-a -x w -o v B`: o empty, ARG=[B v B]"),
"C02-0": ("StringsValue.Clear truncates `(*sa)[:0]` instead of nil", "two StringsOpt sharing one default slice: include=[x c]"),
"C03-8": ("options.try: `len(c.Opts[o]) == 0` instead of the count before", "`[OPTIONS] X`, env set, argv `-e cmdline target` never returns"),
"C03-9": ("atom default case panics with `\"Unexpected \" + p.token().Typ + ...` (a lexer.TokenType, not a string)", "`[ ]`, `( )`, `X | )`: raw panic instead of a positioned error"),
"C03-0": ("simplifySelf skips an already inlined shortcut target with `continue` before removing the shortcut", "`[[X]...]...`, argv `-z`: stack overflow"),
"C04-8": ("getOptsAndArgs: loops interchanged (first declared sub-command anywhere wins)", "commands rm, add NAME; `app add rm`: usage error"),
"C04-9": ("parse: a level that gets no tokens of its own and is followed by a sub-command is not validated", "level with required `--host`, `app r push` runs push"),
"C04-0": ("versionSetAndRequested scans the whole vector up to `--`", "root Version(`v version`), child `v verbose`: `app b -v all` prints the version"),
"C05-8": ("parse: the Action step's Error successor is the parent's out-flow", "own After skipped when the Action panics or exits"),
"C05-9": ("callDo keeps a pending ExitCode when a later step panics", "Action Exit(3), After Exit(5) / panic: exits 3"),
"C05-0": ("Run recovers error-typed panics under ContinueOnError", "`panic(err)` in a hook becomes Run's result"),
"C06-8": ("StringsValue.Clear truncates instead of nil (default slice kept by reference)", "two list options sharing a default slice: the other reads [one beta]"),
"C06-9": ("fillContainers clears only when ValueSetFromEnv or DefaultValue != \"\"", "second Run of the same app extends the first one's values"),
"C06-0": ("SetFromEnv: single- and multi-valued through one helper that trims each item", "env ` 42` accepted, shadows the next listed variable"),
"C07-8": ("State.Parse returns only the args-fill result once a positional matched", "`[-n] [FILE...]`, argv `-n notanumber file.txt` accepted"),
"C07-9": ("parse: fast path skips this level's validation when the first token names a sub-command", "`app remote origin add` without the required `--token` runs"),
"C07-0": ("ErrorHandling propagated in doInit before the initializer instead of copied at registration", "PanicOnError: rejection at depth >= 2 only returns the error"),
"C08-8": ("atom: one `found(TTOptValue)` in the shared tail", "`SRC=<path>`, `(-a SRC)=<x>` compile"),
"C08-9": ("Tokenize short-option branch as a switch: the glued `-` check only after a single short option", "`-ab-f`, `-ab--file` compile; `-ab-` reported one byte late"),
"C08-0": ("doInit returns early when c.fsm != nil", "second Run after Spec was changed to a malformed string does not fail"),
"C09-8": ("apply: per-transition context hoisted, re-created after a match without RejectOptions", "`SRC... DST`, argv `-- a -b` rejected"),
"C09-9": ("apply: `len(s.Transitions) == 0` early return ahead of the `--` strip", "`[-f] Y`, argv `-f a --` rejected"),
"C09-0": ("optsEnd.Match also swallows a literal `--`", "`-- Y...`, argv `-- -- a`: Y=[a]"),
"C10-8": ("matchShortOpt writes the folded residue into args[idx] in place", "`(-a SRC) | -b`: `-ab` accepted, `-a -b` rejected"),
"C10-9": ("matchLongOpt: foreign-option check hoisted before the switch (1 for bool, 2 otherwise)", "`[-f] [-o] SRC`: `--out=v -f x` rejected"),
"C10-0": ("options.try judges `consumed nothing` by the vector length", "env set: `-vIa -Ib x` rejected"),
"C12-8": ("options.try judges `consumed nothing` by the vector length", "env set: `-ab -a` rejected under [OPTIONS]"),
"C12-9": ("opt.Match: the RejectOptions arm returns false instead of the env fallback", "`-e ARG`, env set, argv `-- x` rejected"),
"C12-0": ("apply: per-transition contexts inherit the parent's ExcludedOpts map", "`[OPTIONS] ARG [OPTIONS]`, env set, argv `x -e 1` rejected"),
"C13-8": ("fillContainers: single exit with a shared err, failure only breaks the inner loop", "one bad and one valid option, bad one visited first: accepted"),
"C13-9": ("SetFromEnv trims the variable's content before the emptiness check and Set", "env ` 42`, `1.5\\t` accepted"),
"C13-0": ("IntsValue.Set delegates to IntValue.Set which parses with base 0", "`0x1F`, `1_000` accepted; `010` binds 8"),
"C14-8": ("onError: single switch on the policy, the help/version early return lost", "PanicOnError: `app -h` panics"),
"C14-9": ("parse: help branches merged, `nargsLen == len(args)` decides the level", "`app -h sub`: descends with nil flow steps"),
"C14-0": ("versionSetAndRequested: isFirstItemAmong inlined, guard `len(args) != 1`", "`app -v sub`: version treated as an ordinary option"),
"C15-8": ("fillContainers skips a scalar whose String() equals the token", "IntArg default 42 given `42`: SetByUser false"),
"C15-9": ("Floats64/Floats64Ptr share a helper that copies the fields one by one, SetByUser missing for Floats64Arg", "[]float64 argument: flag never raised"),
"C15-0": ("apply: after `--` candidates record straight into the caller's context, merge skipped", "`[SRC] DST`, argv `-- x`: SRC SetByUser true"),
"C17-8": ("formatOptNamesForHelp stops at the first long name", "`verbose v`: help shows only --verbose"),
"C17-9": ("formatEnvVarsForHelp: trim + Replace(\" \", \", $\")", "two blanks: `$A, $, $B`; tab: `$A B`"),
"C17-0": ("StringValue.IsDefault tests TrimSpace(s) == \"\"", "default ` `: no (default ...) in the help"),
"C19-8": ("fillContainers clears only when ValueSetFromEnv or DefaultValue != \"\"", "custom list with IsDefault() true over non-empty content: no Clear"),
"C19-9": ("IsBool looks only at the BoolValued interface, not at IsBoolFlag()'s result", "custom type with IsBoolFlag() false: `--level debug` delivers Set(\"true\")"),
"C19-0": ("fillContainers drives multi-valued containers through the env helper (exported SetMultivalued)", "custom list receives trimmed tokens and a second Clear on a Set error"),
}
MISSED = {"C03-9"}
for k, (change, needs) in M.items():
    d = "/verif/seeded/" + k
    if not os.path.isdir(d):
        print("missing", k); continue
    p = d + "/meta.json"
    old = json.load(open(p)) if os.path.exists(p) else {}
    m = {"id": k, "property": k.split("-")[0], "change": change, "needs_to_manifest": needs, "round": 11,
         "author": "independent sub-agent given only the property text and a scratch worktree (eleventh, held-out round; plausible maintenance changes that need something specific to manifest)",
         "confirmed": {"commands": ["tools/verify_seed.sh <worktree> <dir>: build ok, unedited suite ok with the change, demo fails with it and passes without it"],
                       "result": "build=ok suite=ok demo_with=fail demo_without=pass"},
         "caught_by": old.get("caught_by", []), "checked_with": old.get("checked_with", ""),
         "first_run": "missed" if k in MISSED else "reported"}
    json.dump(m, open(p, "w"), indent=1)
print(len(M))
