#!/bin/bash
# usage: one_seed.sh <seed id> [prop]  -- the property's own quick check (MOWCHECK selects the binary) on one seeded change, in a scratch worktree.
set -u
export GOFLAGS=-mod=mod GOPROXY=off GOSUMDB=off GOTOOLCHAIN=local GOWORK=off
id="$1"; prop="${2:-${id%-*}}"
W=$(mktemp -d /tmp/os.XXXXXX)
trap 'git -C /repo worktree remove --force $W/w 2>/dev/null; git -C /repo worktree prune; rm -rf $W' EXIT
git -C /repo worktree add --detach $W/w HEAD -q || exit 2
( cd $W/w && git apply /verif/seeded/$id/patch.diff ) || exit 2
mkdir -p $W/evidence/replay; cp /verif/KNOWN_FINDINGS.txt $W/
${MOWCHECK:-/verif/bin/mowcheck} -repo $W/w -verif $W -prop $prop -tier quick -evidence $W/ev.json 2>&1 | grep -v '^discharged' | grep -A2 '^VIOLATION\|^ERROR\|undecided\|missed' | cut -c1-400
echo "exit=${PIPESTATUS[0]}"
