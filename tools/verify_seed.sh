#!/bin/bash
# usage: verify_seed.sh <scratch worktree> <dir with patch.diff and demo_test.go>
# confirms: build ok, unedited suite ok with the change, demo fails with it and passes without it.
set -u
export GOFLAGS=-mod=mod GOPROXY=off GOSUMDB=off GOTOOLCHAIN=local GOWORK=off
WT="$1"; D="$2"
cd "$WT" || exit 2
git checkout -q -- . ; git clean -fdq
[ -z "$(git status --porcelain)" ] || { echo "RESULT $D worktree-not-clean"; exit 2; }
git apply "$D/patch.diff" || { echo "RESULT $D patch-does-not-apply"; exit 2; }
if git diff --name-only | grep -q '_test.go$'; then tests_touched=yes; else tests_touched=no; fi
b=fail; go build ./... >/dev/null 2>&1 && b=ok
s=fail; go test -mod=mod -vet=off -count=1 ./... >/tmp/vs.$$.log 2>&1 && s=ok
M=$(mktemp -d)
printf 'module demo\n\ngo 1.23\n\nrequire github.com/jawher/mow.cli v0.0.0\n\nreplace github.com/jawher/mow.cli => %s\n' "$WT" > $M/go.mod
cp "$WT/go.sum" $M/ ; cp "$D"/demo_test.go $M/
w=pass; (cd $M && timeout 120 go test -count=1 ./... >$M/with.log 2>&1) || w=fail
git checkout -q -- . ; git clean -fdq
wo=pass; (cd $M && timeout 120 go test -count=1 ./... >$M/without.log 2>&1) || wo=fail
if grep -q "build failed\|cannot find\|no required module" $M/with.log $M/without.log; then echo "NOTE demo build trouble:"; head -5 $M/with.log; fi
echo "RESULT $D build=$b suite=$s demo_with=$w demo_without=$wo tests_touched=$tests_touched"
rm -rf $M /tmp/vs.$$.log
