#!/bin/bash
# runs every benign patch under the given root through the checker; a report on any of them is a false alarm
ROOT="${1:-/verif/benign}"
fa=0
for p in $(ls $ROOT/*/patch.diff | sort -V); do
  out=$(/verif/tools/try_patch.sh "$p" 2>&1)
  n=$(echo "$out" | grep -c -E '^(violated|undecided|ERROR|CHECK-ERROR)')
  if [ "$n" -gt 0 ]; then fa=$((fa+1)); echo "FALSE-ALARM $p"; echo "$out" | grep -E '^(violated|undecided|ERROR|CHECK-ERROR)' | cut -c1-300 | sed 's/^/    /'; else echo "quiet       $p"; fi
done
echo "false alarms: $fa"
