#!/bin/bash
# debug: show the alarms a benign patch raises:  fa.sh benign2/<name> [rules]
export GOFLAGS=-mod=mod GOPROXY=off GOSUMDB=off GOTOOLCHAIN=local GOWORK=off
/verif/tools/try_patch.sh /verif/$1/patch.diff | cut -c1-400
