#!/usr/bin/env python3
"""cross.py: for every seeded change, which properties' checks report it (from one all-rules run per change,
in scratch worktrees of /repo's HEAD). Prints the matrix and the changes reported under properties other than their own."""
import json, os, subprocess, sys, glob, tempfile, re, concurrent.futures as cf, queue
env = dict(os.environ, GOFLAGS="-mod=mod", GOPROXY="off", GOSUMDB="off", GOTOOLCHAIN="local", GOWORK="off")
props = {}
for l in subprocess.run(["/verif/bin/mowcheck", "-list"], capture_output=True, text=True).stdout.splitlines():
    m = re.match(r"(\S+)\s+floor=\d+\s+props=(\S+)", l)
    if m: props[m.group(1)] = m.group(2).split(",")
base = json.loads(subprocess.run(["/verif/bin/mowcheck", "-repo", "/repo", "-rules", "all", "-json"], capture_output=True, text=True, env=env).stdout)
basebad = {(o["rule"], o["construct"]) for o in base if o["status"] != "discharged"}
W = tempfile.mkdtemp(prefix="vw.", dir="/tmp")
N = 14
q = queue.Queue()
for i in range(N):
    subprocess.run(["git", "-C", "/repo", "worktree", "add", "--detach", f"{W}/w{i}", "HEAD", "-q"], check=True)
    q.put(f"{W}/w{i}")
def run(d):
    wt = q.get()
    try:
        if subprocess.run(["git", "-C", wt, "apply", d + "/patch.diff"]).returncode: return d, None
        r = subprocess.run(["/verif/bin/mowcheck", "-repo", wt, "-rules", "all", "-json"], capture_output=True, text=True, env=env)
        subprocess.run(["git", "-C", wt, "checkout", "-q", "--", "."]); subprocess.run(["git", "-C", wt, "clean", "-fdq"])
        try: obs = json.loads(r.stdout)
        except Exception: return d, "ERR"
        hit = {}
        for o in obs:
            if o["status"] == "discharged" or (o["rule"], o["construct"]) in basebad: continue
            for p in (o.get("only_for") or props[o["rule"]]):
                hit.setdefault(p, set()).add(o["rule"])
            hit.setdefault("_obs", set()).add(o["rule"] + " " + o["construct"])
        return d, hit
    finally:
        q.put(wt)
dirs = sorted(glob.glob("/verif/seeded/C??-?"))
try:
    with cf.ThreadPoolExecutor(N) as ex:
        res = list(ex.map(run, dirs))
finally:
    for i in range(N): subprocess.run(["git", "-C", "/repo", "worktree", "remove", "--force", f"{W}/w{i}"])
    subprocess.run(["git", "-C", "/repo", "worktree", "prune"]); subprocess.run(["rm", "-rf", W])
for d, hit in res:
    own = os.path.basename(d)[:3]
    if not isinstance(hit, dict): print(os.path.basename(d), hit); continue
    obs = hit.pop("_obs", set())
    others = sorted(p for p in hit if p != own)
    print(os.path.basename(d), "own:" + ",".join(sorted(hit.get(own, []))), "| others:", " ".join(f"{p}({','.join(sorted(hit[p]))})" for p in others))
    for x in sorted(obs): print("      ", x)
