#!/bin/bash
# usage: check.sh <PROPERTY-ID> <quick|thorough>
# Decides one property by static analysis of /repo's current working tree.
set -u
ID="${1:?property id}"; TIER="${2:-${VERIF_TIER:-quick}}"
HERE="$(cd "$(dirname "$0")" && pwd)"
REPO="${VERIF_REPO:-/repo}"
export GOFLAGS=-mod=mod GOPROXY=off GOSUMDB=off GOTOOLCHAIN=local GOWORK=off
if [ ! -x "$HERE/bin/mowcheck" ] || [ -n "$(find "$HERE/checker" -newer "$HERE/bin/mowcheck" -name '*.go' -print -quit 2>/dev/null)" ]; then
  (cd "$HERE/checker" && go build -o "$HERE/bin/mowcheck" ./cmd/mowcheck) || { echo "CHECK-ERROR cannot build checker"; exit 2; }
fi
mkdir -p "$HERE/evidence"
exec "$HERE/bin/mowcheck" -repo "$REPO" -verif "$HERE" -prop "$ID" -tier "$TIER" -evidence "$HERE/evidence/$ID.json"
